"""known findings: re-run the witness natively; match violations against the carve-out"""
from __future__ import annotations


def reproduces(f):
    fn = globals().get("repro_" + f["id"].replace("-", "_"))
    if fn is None:
        return False
    try:
        return bool(fn(f))
    except BaseException:
        return False


def matches(f, v):
    fn = globals().get("match_" + f["id"].replace("-", "_"))
    return bool(fn and fn(f, v))


def rerun_violation(v):
    """re-execute a stored Engine B counterexample against the real code + oracle"""
    from bounded import common as B

    inp = v.get("input") or {}
    if v.get("kind") in ("wrong-answer", "exception", "not-refused") and "conditionals" in inp:
        conds = {int(k): B.split_text(t) for k, t in inp["conditionals"].items()}
        qs = [B.split_text(t) for t in inp.get("queries", [])]
        r = B.judge_case((inp["signature"], conds, qs, [(v["system"], v["pmaxsat"])], v["weakly"]))
        return {"violates": bool(r["violations"]), "details": r["violations"][:1]}
    from bounded import replayers

    return replayers.rerun(v)


# ---- KF-C13-duplicate-texts -------------------------------------------------------
def repro_KF_C13_duplicate_texts(f):
    from bounded import common as B
    from oracle.gen import cond
    from inference.belief_base import BeliefBase
    from inference.inference_manager import InferenceManager
    from inference.queries import Queries

    w = f["witness"]
    conds = {}
    for i, (b, a) in enumerate(w["base"], start=1):
        c = cond(b, a)
        c.index = i
        conds[i] = c
    bb = BeliefBase(w["signature"], conds, "kf")
    qs = Queries({i: cond(b, a) for i, (b, a) in enumerate(w["queries"], start=1)})
    df = InferenceManager(bb, w["system"]).inference(qs)
    return [int(x) for x in df["index"].tolist()] != w["expected_index_column"]


def match_KF_C13_duplicate_texts(f, v):
    return v.get("carve_out") == "duplicate-texts"


# ---- KF-C19-fixed-gamma -----------------------------------------------------------
def repro_KF_C19_fixed_gamma(f):
    from oracle.gen import cond
    from inference.c_revision import c_revision
    from inference.preocf import PreOCF
    from oracle.core import ev

    w = f["witness"]
    sig = w["signature"]
    ranks = {k: 0 for k in PreOCF.create_bitvec_world_dict(sig)}
    pre = PreOCF.init_custom(ranks, signature=sig)
    conds = []
    for idx, b, a in w["conditionals"]:
        c = cond(b, a)
        c.index = idx
        conds.append(c)
    res = c_revision(pre, conds, gamma_plus_zero=w["gamma_plus_zero"], fixed_gamma_minus={int(k): v for k, v in w["fixed_gamma_minus"].items()})
    if res is None:
        return False
    # revised ranking over explicit worlds; is every conditional accepted?
    def kstar(bits):
        wd = {s: bits[i] == "1" for i, s in enumerate(sig)}
        r = ranks[bits]
        for c in conds:
            a, b = ev(c.antecedence, wd), ev(c.consequence, wd)
            if a and b:
                r += res.get(f"gamma+_{c.index}", 0)
            if a and not b:
                r += res.get(f"gamma-_{c.index}", 0)
        return r

    for c in conds:
        v = [kstar(x) for x in ranks if ev(c.antecedence, {s: x[i] == "1" for i, s in enumerate(sig)}) and ev(c.consequence, {s: x[i] == "1" for i, s in enumerate(sig)})]
        n = [kstar(x) for x in ranks if ev(c.antecedence, {s: x[i] == "1" for i, s in enumerate(sig)}) and not ev(c.consequence, {s: x[i] == "1" for i, s in enumerate(sig)})]
        if not v or (n and not min(v) < min(n)):
            return True  # a dict was returned but the revised ranking does not accept
    return False


def match_KF_C19_fixed_gamma(f, v):
    return "fixed-gamma" in str(v.get("carve_out"))


# ---- KF-C11-mpl-empty-wcnf ----------------------------------------------------------
_MPL = r"""
import os, sys
os.environ["INFOCF_LOGLEVEL"] = "CRITICAL"
sys.path.insert(0, sys.argv[1]); sys.path.insert(0, sys.argv[2])
import warnings; warnings.filterwarnings("ignore")
from oracle.gen import base_from_strings, cond, mk_queries
from inference.inference_manager import InferenceManager
bb = base_from_strings(["a"], [("Top", "Top")])
print(InferenceManager(bb, "c-inference", pmaxsat_solver="rc2-mpl").inference(mk_queries([cond("a", "Top")]))["result"].tolist())
"""


def repro_KF_C11_mpl_empty_wcnf(f):
    import os
    import subprocess
    import sys
    import tempfile

    here = os.path.dirname(os.path.dirname(os.path.abspath(__file__)))
    repo = os.environ.get("INFOCF_REPO", "/repo")
    with tempfile.TemporaryDirectory() as d:
        p = os.path.join(d, "w.py")
        open(p, "w").write(_MPL)
        r = subprocess.run([sys.executable, p, repo, here], capture_output=True, text=True, timeout=300)
    return r.returncode < 0  # killed by a signal


def match_KF_C11_mpl_empty_wcnf(f, v):
    s = str(v)
    return "rc2-mpl" in s and ("SIGSEGV" in s or "signal" in s.lower() or "died" in s.lower() or "killed" in s.lower())


def repro_KF_C11_mcb_keyerror(f):
    return True  # heavy and nondeterministic: listed without re-running (see the finding's text)


def match_KF_C11_mcb_keyerror(f, v):
    s = str(v)
    return "rc2-mcb" in s and "KeyError" in s
