"""Contracts: inference/preocf.py  (C16: Z-rank object; C18: formula_rank, acceptance)"""
import z3

from contracts.spec import PS
from pyvc import logic as L
from pyvc.contract import Contract, LoopSpec
from pyvc.logic import Forall, LCnd, LForm, LLCnd
from pyvc.values import *  # noqa

LStr = L.list_theory(StrSort, "Str")
mem_Str, _ = L.mem_theory(StrSort)

# the set of assignments denoted by a world bitstring under the object's signature
Wof = z3.Function("Wof", StrSort, L.WSet)
# the total ranking an object denotes (abstract base class; for System Z it is KZ below)
RKf = z3.Function("RKf", StrSort, L.Int)

# --- System Z rank of a world: RZ(P, H, i) (the same descent as EZ, DESIGN §5 C16) -----------
RZ = z3.Function("RZ", LLCnd.sort, L.WSet, L.Int, L.Int)
_P = z3.Const("_rz_P", LLCnd.sort)
_H = z3.Const("_rz_H", L.WSet)
_i = z3.Int("_rz_i")
_Hi = L.inter(_H, PS.KL((), LLCnd.at(_P, _i)))
L.TH.axiom(
    [_P, _H, _i],
    RZ(_P, _H, _i),
    RZ(_P, _H, _i) == z3.If(L.nonempty(_Hi), z3.If(_i == 0, 0, RZ(_P, _Hi, _i - 1)), _i + 1),
    "unfold.RZ",
)


def KZ(P, w):
    """Z-rank of world w; 0 for the empty partition (empty base: nothing can be falsified)"""
    return z3.If(LLCnd.len(P) == 0, 0, RZ(P, Wof(w), LLCnd.len(P) - 1))


RanksT = TDict(TOptional(TInt), TStr)
ZOCF = TObj(
    "SystemZPreOCF",
    {"ranks": RanksT, "signature": TOpaque, "_z_partition": TList(TList(TCnd)), "conditionals": TOpaque},
)
OCF = TObj("PreOCF", {"ranks": RanksT, "signature": TOpaque, "conditionals": TOpaque})

for cls, selfT in (("PreOCF", OCF), ("SystemZPreOCF", ZOCF)):
    Contract(
        f"inference.preocf:{cls}.symbolize_bitvec" if cls == "PreOCF" else f"inference.preocf:{cls}.symbolize_bitvec_",
        params={"self": selfT, "bitvec": TStr},
        returns=TList(TForm),
        ensures=lambda c, r: [L.MAll(r.t, r.len()) == Wof(c.bitvec.t)],
        trusted=True,
        note="ASSUMED (string/bit manipulation outside Engine P's subset): the literals returned for a bitstring "
        "jointly denote exactly the assignments Wof(bitvec); exercised by Engine B (C16, C18)",
    )


def _P_of(c):
    return c.field(c.self, "_z_partition").t


Contract(
    "inference.preocf:SystemZPreOCF._rec_z_rank",
    params={"self": ZOCF, "solver": TSolverT, "partition_index": TInt},
    returns=TInt,
    requires=lambda c: [0 <= c.partition_index.t, c.partition_index.t < LLCnd.len(_P_of(c))],
    ensures=lambda c, r: [r.t == RZ(_P_of(c), c.old.A(c.old.solver), c.partition_index.t)],
    modifies=["solver"],
    loops={
        0: LoopSpec(
            "[... for c in part]",
            lambda s, j, pre: [s.A(s.solver) == L.inter(pre.A(pre.solver), PS.K(s.part.t, j))],
        )
    },
    properties=["C16"],
)

Contract(
    "inference.preocf:SystemZPreOCF.z_part2ocf",
    params={"self": ZOCF, "world": TStr},
    returns=TInt,
    ensures=lambda c, r: [r.t == KZ(_P_of(c), c.world.t)],
    loops={
        0: LoopSpec(
            "[... for s in signature_symbols]",
            lambda s, j, pre: [s.A(s.solver) == L.inter(pre.A(pre.solver), L.MAll(s.signature_symbols.t, j))],
        )
    },
    properties=["C16"],
)


def cache_inv(c, P, rank_of):
    """every cached rank is the object's rank of that world (lazy / forced / bulk agree)"""
    d = c.field(c.self, "ranks")
    w = z3.Const("_ci_w", StrSort)
    e = z3.Select(d.val, w)
    return Forall(
        [w],
        [mem_Str(d.keys, w)],
        z3.Implies(mem_Str(d.keys, w), z3.Or(OptInt.is_none(e), OptInt.val(e) == rank_of(w))),
        "cache.invariant",
    )


def _keys(c):
    return c.field(c.self, "ranks").keys


Contract(
    "inference.preocf:SystemZPreOCF.rank_world",
    params={"self": ZOCF, "world": TStr, "force_calculation": TBool},
    defaults={"force_calculation": lambda ex: VBool(False)},
    returns=TInt,
    requires=lambda c: [
        mem_Str(_keys(c), c.world.t),
        cache_inv(c, _P_of(c), lambda w: KZ(_P_of(c), w)),
    ],
    ensures=lambda c, r: [
        r.t == KZ(_P_of(c), c.world.t),
        _keys(c) == _keys(c.old),
        cache_inv(c, _P_of(c), lambda w: KZ(_P_of(c), w)),
    ],
    properties=["C16"],
)

# --- abstract rank_world of the base class (what formula_rank relies on) ------------------------
Contract(
    "inference.preocf:PreOCF.rank_world",
    params={"self": OCF, "world": TStr, "force_calculation": TBool},
    defaults={"force_calculation": lambda ex: VBool(False)},
    returns=TInt,
    requires=lambda c: [mem_Str(_keys(c), c.world.t)],
    ensures=lambda c, r: [r.t == RKf(c.world.t), _keys(c) == _keys(c.old)],
    modifies=["self.ranks"],
    raises={"ValueError": lambda c: z3.BoolVal(True)},
    trusted=True,
    note="abstract method; SystemZPreOCF.rank_world is proved against RKf := KZ, CustomPreOCF/RandomMinCRep are bounded",
)

# --- formula_rank: least rank of the models of a formula (prefix minimum over the world list) ----
S_ = z3.Const("_fr_S", L.WSet)
K_ = z3.Const("_fr_K", LStr.sort)


def _sat(K, S, i):
    return L.nonempty(L.inter(Wof(LStr.at(K, i)), S))


FRn = L.prefix_fun("FRn", [LStr.sort, L.WSet], L.Bool, lambda K, S: z3.BoolVal(True), lambda K, S, i, prev: z3.And(prev, z3.Not(_sat(K, S, i))))
FRv = z3.Function("FRv", LStr.sort, L.WSet, L.Int, L.Int)
_n = z3.Int("_fr_n")
L.TH.axiom(
    [K_, S_, _n],
    FRv(K_, S_, _n),
    FRv(K_, S_, _n)
    == z3.If(
        _n <= 0,
        0,
        z3.If(
            _sat(K_, S_, _n - 1),
            z3.If(
                z3.Or(FRn(K_, S_, _n - 1), RKf(LStr.at(K_, _n - 1)) < FRv(K_, S_, _n - 1)),
                RKf(LStr.at(K_, _n - 1)),
                FRv(K_, S_, _n - 1),
            ),
            FRv(K_, S_, _n - 1),
        ),
    ),
    "unfold.FRv",
)


def _fr_post(c, r):
    K = _keys(c.old)
    S = L.M(c.formula.t)
    n = LStr.len(K)
    if isinstance(r, VNone):
        isnone, val = z3.BoolVal(True), None
    elif isinstance(r, VOptional):
        isnone, val = r.isnone, r.val.t
    else:
        isnone, val = z3.BoolVal(False), r.t
    out = [isnone == FRn(K, S, n), _keys(c) == K]
    if val is not None:
        out.append(z3.Implies(z3.Not(isnone), val == FRv(K, S, n)))
    return out


def _fr_inv(s, j, pre):
    K = _keys(pre)
    S = L.M(s.formula.t)
    mr = s.min_rank
    return [
        mr.isnone == FRn(K, S, j),
        z3.Implies(z3.Not(mr.isnone), mr.val.t == FRv(K, S, j)),
        _keys(s) == K,
        s.A(s.solver) == L.FULL,
    ]


Contract(
    "inference.preocf:PreOCF.formula_rank",
    params={"self": OCF, "formula": TForm},
    returns=TOptional(TInt),
    locals={"min_rank": TOptional(TInt)},
    ensures=_fr_post,
    modifies=["self.ranks"],
    raises={"ValueError": lambda c: z3.BoolVal(True)},
    loops={
        0: LoopSpec("for world in self.ranks.keys()", _fr_inv),
        1: LoopSpec(
            "[... for s in world_symbols]",
            lambda s, j, pre: [s.A(s.solver) == L.inter(pre.A(pre.solver), L.MAll(s.world_symbols.t, j))],
        ),
    },
    properties=["C18", "C16"],
)


def _acc_post(c, r):
    K = _keys(c.old)
    n = LStr.len(K)
    q = c.conditional.t
    V, N = L.ver(q), L.fal(q)
    return [
        r.t
        == z3.If(FRn(K, V, n), False, z3.If(FRn(K, N, n), True, FRv(K, V, n) < FRv(K, N, n))),
        _keys(c) == K,
    ]


Contract(
    "inference.preocf:PreOCF.conditional_acceptance",
    params={"self": OCF, "conditional": TCnd},
    returns=TBool,
    ensures=_acc_post,
    modifies=["self.ranks"],
    raises={"ValueError": lambda c: z3.BoolVal(True)},
    properties=["C18", "C16"],
)


# ---------------------------------------------------------------------------
# C18 / C19: small world-level helpers
# ---------------------------------------------------------------------------
Contract(
    "inference.preocf:PreOCF.world_satisfies_conditionalization",
    params={"self": OCF, "world": TStr, "conditionalization": TForm},
    returns=TBool,
    ensures=lambda c, r: [r.t == L.nonempty(L.inter(Wof(c.world.t), L.M(c.conditionalization.t)))],
    loops={0: LoopSpec("[... for s in world_symbols]", lambda s, j, pre: [s.A(s.solver) == L.inter(pre.A(pre.solver), L.MAll(s.world_symbols.t, j))])},
    properties=["C18", "C19"],
    note="a world satisfies a formula iff its assignments meet the formula's models (relative to the assumed symbolize_bitvec)",
)


from pyvc import iterm as _IT  # noqa: E402

_OI = TOptional(TInt)
RanksOK, _ = _IT.defpred_all(
    "RanksOK",
    [LStr.sort, z3.ArraySort(StrSort, _OI.sort()), L.Int],
    lambda x: x[2],
    lambda x, k: (lambda v: z3.And(z3.Not(v.isnone), v.val.t >= 0))(_OI.wrap(z3.Select(x[1], LStr.at(x[0], k)))),
    lambda x, k: LStr.at(x[0], k),
)


def _isocf_inv(s, j, pre):
    r = s.field(s.self, "ranks")
    return [RanksOK(r.keys, r.val, j)]


def _isocf_post(c, r):
    rk = c.field(c.self, "ranks")
    return [r.t == RanksOK(rk.keys, rk.val, LStr.len(rk.keys))]


Contract(
    "inference.preocf:PreOCF.is_ocf",
    params={"self": OCF},
    returns=TBool,
    ensures=_isocf_post,
    loops={0: LoopSpec("for world in self.ranks.keys()", _isocf_inv)},
    properties=["C18"],
    note="True iff every world has a rank and it is non-negative",
)


# ---------------------------------------------------------------------------
# C18: tpo2ranks -- a total preorder (list of disjoint layers) becomes a ranking
# ---------------------------------------------------------------------------
SStr = z3.SetSort(StrSort)
LSS = L.list_theory(SStr)
RF = z3.Function("rank_function", L.Int, L.Int)  # the callable passed in: a function of the layer number (TB-py)
InLayers, _ = _IT.defpred_some("InLayers", [LSS.sort, StrSort, L.Int], lambda x: x[2], lambda x, i: z3.IsMember(x[1], LSS.at(x[0], i)), lambda x, i: LSS.at(x[0], i))
enumS = L.enum_theory(StrSort)[0]


def _tpo_disjoint(tpo):
    i, j = z3.Ints("_td_i _td_j")
    w = z3.Const("_td_w", StrSort)
    return Forall(
        [i, j, w],
        [z3.IsMember(w, LSS.at(tpo, i)), LSS.at(tpo, j)],
        z3.Implies(z3.And(0 <= i, i < LSS.len(tpo), 0 <= j, j < LSS.len(tpo), i != j, z3.IsMember(w, LSS.at(tpo, i))), z3.Not(z3.IsMember(w, LSS.at(tpo, j)))),
        "tpo.layers.disjoint",
    )


def _ranked(r, tpo, upto, name, inner=None):
    """every world of the first `upto` layers (and, of layer `upto`, the worlds in `inner`) has the rank of its layer"""
    i = z3.Int("_tr_i_" + name)
    w = z3.Const("_tr_w_" + name, StrSort)
    v = _OI.wrap(z3.Select(r.val, w))
    ok = z3.And(mem_Str(r.keys, w), z3.Not(v.isnone), v.val.t == RF(i))
    out = [Forall([i, w], [z3.IsMember(w, LSS.at(tpo, i))], z3.Implies(z3.And(0 <= i, i < upto, z3.IsMember(w, LSS.at(tpo, i))), ok), "tpo.ranked." + name)]
    return out


def _tpo_outer(s, j, pre):
    tpo = s.tpo.t
    r = s.ranks
    w = z3.Const("_to_w", StrSort)
    if not isinstance(r, VDict):
        return [j == 0]
    return _ranked(r, tpo, j, "outer") + [Forall([w], [mem_Str(r.keys, w)], z3.Implies(mem_Str(r.keys, w), InLayers(tpo, w, j)), "tpo.keys.from.layers")]


def _tpo_inner(s, j, pre):
    tpo = s.tpo.t
    r = s.ranks
    ln = s.layer_num.t
    lst = enumS(s.layer.t)
    k = z3.Int("_ti_k")
    w = z3.Const("_ti_w", StrSort)
    v = lambda x: _OI.wrap(z3.Select(r.val, x))
    cur = LStr.at(lst, k)
    return _ranked(r, tpo, ln, "inner") + [
        Forall([k], [LStr.at(lst, k)], z3.Implies(z3.And(0 <= k, k < j), z3.And(mem_Str(r.keys, cur), z3.Not(v(cur).isnone), v(cur).val.t == RF(ln))), "tpo.layer.so.far"),
        Forall([w], [mem_Str(r.keys, w)], z3.Implies(mem_Str(r.keys, w), InLayers(tpo, w, ln + 1)), "tpo.keys.from.layers"),
    ]


def _tpo_post(c, r):
    tpo = c.tpo.t
    w = z3.Const("_tp_w", StrSort)
    n = LSS.len(tpo)
    return _ranked(r, tpo, n, "post") + [Forall([w], [mem_Str(r.keys, w)], z3.Implies(mem_Str(r.keys, w), InLayers(tpo, w, n)), "tpo2ranks.keys")]


Contract(
    "inference.preocf:tpo2ranks",
    params={"tpo": TList(TSet(TStr)), "rank_function": TFunInt(RF)},
    returns=RanksT,
    locals={"ranks": RanksT},
    requires=lambda c: [_tpo_disjoint(c.tpo.t)],
    ensures=_tpo_post,
    loops={0: LoopSpec("for (layer_num, layer) in enumerate(tpo*", _tpo_outer), 1: LoopSpec("for world in layer", _tpo_inner)},
    properties=["C18"],
    fuel=6,
    note="every world of layer i gets rank_function(i), and only worlds of some layer are ranked (layers pairwise disjoint)",
)


# ---------------------------------------------------------------------------
# C18: ranks2tpo -- a ranking becomes the list of its rank classes, lowest rank first
# ---------------------------------------------------------------------------
GroupsT = TDict(TSet(TStr), TInt)
LIntL = L.LInt
mem_I = L.mem_Int


def _has_rank(ranks, w, k):
    v = _OI.wrap(z3.Select(ranks.val, w))
    return z3.And(mem_Str(ranks.keys, w), z3.Not(v.isnone), v.val.t == k)


# SeenRank(keys, val, w, k, n): w is one of the first n worlds of the ranking and has rank k
SeenRank, _ = _IT.defpred_some(
    "SeenRank",
    [LStr.sort, z3.ArraySort(StrSort, _OI.sort()), StrSort, L.Int, L.Int],
    lambda x: x[4],
    lambda x, p: z3.And(LStr.at(x[0], p) == x[2], z3.Not(_OI.wrap(z3.Select(x[1], x[2])).isnone), _OI.wrap(z3.Select(x[1], x[2])).val.t == x[3]),
    lambda x, p: LStr.at(x[0], p),
    step=True,
)


def _r2t_inv(s, j, pre):
    rk = s.ranks
    g = s.rank_groups
    if not isinstance(g, VDict):
        return [j == 0]
    k = z3.Int("_r2_k")
    w = z3.Const("_r2_w", StrSort)
    grp = z3.Select(g.val, k)
    return [
        Forall([k, w], [z3.IsMember(w, grp)], z3.Implies(mem_I(g.keys, k), z3.IsMember(w, grp) == SeenRank(rk.keys, rk.val, w, k, j)), "r2t.groups"),
        Forall([k, w], [SeenRank(rk.keys, rk.val, w, k, j)], z3.Implies(SeenRank(rk.keys, rk.val, w, k, j), z3.And(mem_I(g.keys, k), z3.IsMember(w, grp))), "r2t.groups.complete"),
    ]


def _r2t_post(c, r):
    rk = c.ranks
    S = c.ghost["levels"].t
    p, q = z3.Ints("_r2p_p _r2p_q")
    w = z3.Const("_r2p_w", StrSort)
    n = LStr.len(rk.keys)
    layer = LSS.at(r.t, p)
    return [
        LSS.len(r.t) == LIntL.len(S),
        Forall([p, q], [LIntL.at(S, p), LIntL.at(S, q)], z3.Implies(z3.And(0 <= p, p <= q, q < LIntL.len(S)), LIntL.at(S, p) <= LIntL.at(S, q)), "ranks2tpo.levels.ascending"),
        Forall([p, w], [z3.IsMember(w, layer)], z3.Implies(z3.And(0 <= p, p < LSS.len(r.t)), z3.IsMember(w, layer) == SeenRank(rk.keys, rk.val, w, LIntL.at(S, p), n)), "ranks2tpo.layers"),
        Forall([w, q], [SeenRank(rk.keys, rk.val, w, q, n)], z3.Implies(SeenRank(rk.keys, rk.val, w, q, n), mem_I(S, q)), "ranks2tpo.every.rank.has.a.level"),
    ]


Contract(
    "inference.preocf:ranks2tpo",
    params={"ranks": RanksT},
    returns=TList(TSet(TStr)),
    locals={"rank_groups": GroupsT},
    ensures=_r2t_post,
    ghost_out={"levels": TList(TInt)},
    ghost_wit=lambda c, r: {"levels": c._st.env["__sorted_last"]} if "__sorted_last" in c._st.env else {"levels": VList(LIntL.nil, TInt)},
    loops={0: LoopSpec("for (world, rank) in ranks.items()", _r2t_inv)},
    properties=["C18"],
    fuel=7,
    note="layer p is the set of worlds of rank levels[p]; the levels (ghost output) ascend and contain every rank that occurs; unranked worlds are in no layer",
)
