"""Engine B for the operator properties C01-C05, C07: real InferenceManager vs oracle."""
from __future__ import annotations

import random

from .common import (
    distinct_queries,
    judge_case,
    merge,
    pmap,
    rekey,
    rnd_conditional,
    s2_bases,
    s2_queries,
    s3_base,
    texts_of,
    split_text,
)

CONFIGS = {
    "C01": ([("p-entailment", "rc2")], False),
    "C02": ([("system-z", "rc2")], False),
    "C03": ([("system-w", "rc2"), ("system-w", "z3")], False),
    "C04": ([("lex_inf", "rc2"), ("lex_inf", "z3")], False),
    "C05": ([("c-inference", "rc2")], False),
    "C07": (
        [("p-entailment", "rc2"), ("system-z", "rc2"), ("system-w", "rc2"), ("system-w", "z3"), ("lex_inf", "rc2"), ("lex_inf", "z3")],
        True,
    ),
}

SIZES = {
    # (S2 bases, S2 queries per base, S3 bases, S3 queries per base)
    "quick": (400, 12, 400, 6),
    "thorough": (None, None, 2500, 6),
}


def build_cases(prop, tier, seed, configs=None, weakly=None):
    rng = random.Random(seed)
    cfgs, wk = CONFIGS[prop]
    if configs is not None:
        cfgs = configs
    if weakly is not None:
        wk = weakly
    n2, q2, n3, q3 = SIZES[tier]
    cases = []
    exhaustive = n2 is None
    if exhaustive and len(cfgs) > 2:
        # keep the thorough tier within its budget: exhaustive over bases, sampled queries
        q2 = 27
    for sig, conds in s2_bases(rng, exhaustive, n2 or 0):
        qs = distinct_queries(s2_queries(rng, exhaustive and q2 is None, q2 or 81))
        cases.append((sig, texts_of(rekey(conds, rng)), [split_text(str(q)) for q in qs], cfgs, wk))
    for _ in range(n3):
        sig, conds = s3_base(rng, consts=0.1 if wk else 0.06)
        qs = distinct_queries([rnd_conditional(rng, sig, 2, 0.08) for _ in range(q3)])
        cases.append((sig, texts_of(rekey(conds, rng)), [split_text(str(q)) for q in qs], cfgs, wk))
    return cases


def run(prop, tier, seed, **kw):
    cases = build_cases(prop, tier, seed, **kw)
    res = merge(pmap(judge_case, cases))
    res["scope"] = (
        f"S2 {'exhaustive' if SIZES[tier][0] is None else 'sample'} + S3 seeded; configs {CONFIGS[prop][0] if not kw.get('configs') else kw['configs']}; "
        f"weakly={CONFIGS[prop][1] if kw.get('weakly') is None else kw['weakly']}"
    )
    res["samples"] = [dict(signature=c[0], conditionals=c[1], queries=c[2][:3]) for c in cases[:2]]
    res["exhaustive_s2"] = SIZES[tier][0] is None
    return res
