"""Contracts: inference/c_revision_model.py -- the incremental c-revision model (C19, histories).

A data structure against an abstract view.  The model keeps, per world w of the prior ranking, the
set world_acc[w] of indices of the conditionals w verifies and world_rej[w] of those it falsifies.
Representation invariant WF: for every world w of the model and every index i

    i in world_acc[w]  <=>  i is a key of conds and  w verifies conds[i]
    i in world_rej[w]  <=>  i is a key of conds and  w does not verify but falsifies conds[i]

("w verifies c" = world_satisfies_conditionalization(w, A and B), i.e. the assignments of w meet
ver(c)), every world has an entry in both dictionaries and its bit list in world_bits.
Proved from the real source: add_conditional and remove_conditional PRESERVE WF for the new set of
conditionals (conds extended by cond.index -> cond, resp. with the key removed) -- so after any
sequence of additions and removals the per-world classification is that of the current
conditionals, whatever the history -- and add_conditional refuses a present index.
Assumed: MASK -- if _extract_cond_masks(cond, sig_index) is not None then, for every world with its
bit list, `bits[a_idx] == a_val and bits[c_idx] == c_val` holds exactly when the world verifies
cond, `bits[a_idx] == a_val and bits[c_idx] != c_val` exactly when it falsifies it (literal
conditionals over signature atoms; string / bit manipulation outside the executor's subset;
compared with the solver path by module c19).  BitsOf(w, b) is defined (b lists the integer values
of the characters of w) and __init__ is proved to build that dictionary.  Not covered:
to_compilation (reads the caches)."""
import z3

from contracts import c_preocf as CP
from pyvc import iterm as IT
from pyvc import lib
from pyvc import logic as L
from pyvc.contract import Contract, LoopSpec
from pyvc.logic import Forall, LInt
from pyvc.values import *  # noqa

LStr = CP.LStr
mem_Str = CP.mem_Str
Wof = CP.Wof
KSetS = z3.SetSort(L.Int)
MaskT = TTuple([TInt, TInt, TInt, TInt])
OptMask = TOptional(MaskT)
CMapS = z3.ArraySort(L.Int, L.Cnd)

MODEL = TObj(
    "CRevisionModel",
    {
        "ranking_function": CP.OCF,
        "worlds": TList(TStr),
        "conds": TDict(TCnd),
        "masks": TDict(OptMask),
        "world_acc": TDict(TSet(TInt), TStr),
        "world_rej": TDict(TSet(TInt), TStr),
        "world_bits": TDict(TList(TInt), TStr),
        "sig_index": TOpaque,
    },
)


def Ver(w, c):
    return L.nonempty(L.inter(Wof(w), L.ver(c)))


def Fal(w, c):
    return L.nonempty(L.inter(Wof(w), L.fal(c)))


def acc_def(keys, val, w, i):
    return z3.And(L.mem_Int(keys, i), Ver(w, z3.Select(val, i)))


def rej_def(keys, val, w, i):
    return z3.And(L.mem_Int(keys, i), z3.Not(Ver(w, z3.Select(val, i))), Fal(w, z3.Select(val, i)))


# Seen(ws, w, n): w is one of the first n worlds of the list
Seen, _ = IT.defpred_some("SeenWorld", [LStr.sort, StrSort, L.Int], lambda x: x[2], lambda x, p: LStr.at(x[0], p) == x[1], lambda x, p: LStr.at(x[0], p))


def _f(c, name, selfname="self"):
    return c.field(c._st.env[selfname], name)


def wf(c, keys, val, acc, rej, name):
    """the caches acc / rej classify the conditionals (keys, val) for every world of the model"""
    ws = _f(c, "worlds").t
    bits = _f(c, "world_bits")
    p, i = z3.Ints(f"_wf_p_{name} _wf_i_{name}")
    w = LStr.at(ws, p)
    rng = z3.And(0 <= p, p < LStr.len(ws))
    return [
        Forall([p], [LStr.at(ws, p)], z3.Implies(rng, z3.And(mem_Str(acc.keys, w), mem_Str(rej.keys, w), mem_Str(bits.keys, w), BitsOf(w, z3.Select(bits.val, w)))), f"WF.entries.{name}"),
        Forall([p, i], [LStr.at(ws, p), z3.IsMember(i, z3.Select(acc.val, w))], z3.Implies(rng, z3.IsMember(i, z3.Select(acc.val, w)) == acc_def(keys, val, w, i)), f"WF.acc.{name}"),
        Forall([p, i], [LStr.at(ws, p), z3.IsMember(i, z3.Select(rej.val, w))], z3.Implies(rng, z3.IsMember(i, z3.Select(rej.val, w)) == rej_def(keys, val, w, i)), f"WF.rej.{name}"),
        _ao(Forall([p, i], [LStr.at(ws, p), L.mem_Int(keys, i)], z3.Implies(rng, z3.IsMember(i, z3.Select(acc.val, w)) == acc_def(keys, val, w, i)), f"WF.acc.{name}.r")),
        _ao(Forall([p, i], [LStr.at(ws, p), L.mem_Int(keys, i)], z3.Implies(rng, z3.IsMember(i, z3.Select(rej.val, w)) == rej_def(keys, val, w, i)), f"WF.rej.{name}.r")),
    ]


def _ao(f):
    f.assume_only = True  # the same fact as another clause, with another trigger
    return f


def wf_self(c, name="self"):
    conds = _f(c, "conds")
    return wf(c, conds.keys, conds.val, _f(c, "world_acc"), _f(c, "world_rej"), name)


# --- assumed: literal masks --------------------------------------------------------------------
LitMask = z3.Function("LitMask", MaskT.sort(), L.Cnd, L.Bool)
# BitsOf(w, b): b is the list of the integer values of the characters of w (what __init__ stores in world_bits)
BitVals, _ = IT.defpred_all("BitVals", [StrSort, LInt.sort, L.Int], lambda x: x[2], lambda x, k: LInt.at(x[1], k) == int_of_str(chr_at(x[0], k)), lambda x, k: LInt.at(x[1], k))


def BitsOf(w, b):
    return z3.And(LInt.len(b) == strlen(w), BitVals(w, b, LInt.len(b)))


_mk = z3.Const("_lm_m", MaskT.sort())
_cn = z3.Const("_lm_c", L.Cnd)
_w = z3.Const("_lm_w", StrSort)
_b = z3.Const("_lm_b", LInt.sort)
_MS = MaskT.sort()
_ai, _av, _ci, _cv = (_MS.accessor(0, k)(_mk) for k in range(4))
_hit = LInt.at(_b, _ai) == _av
_con = LInt.at(_b, _ci) == _cv
MASK_AXIOMS = [
    Forall(
        [_mk, _cn, _w, _b],
        [LitMask(_mk, _cn), BitVals(_w, _b, LInt.len(_b))],
        z3.Implies(
            z3.And(LitMask(_mk, _cn), BitsOf(_w, _b)),
            z3.And(
                0 <= _ai, _ai < LInt.len(_b), 0 <= _ci, _ci < LInt.len(_b),
                z3.And(_hit, _con) == Ver(_w, _cn),
                z3.And(_hit, z3.Not(_con)) == z3.And(z3.Not(Ver(_w, _cn)), Fal(_w, _cn)),
            ),
        ),
        "assumed.MASK",
    )
]

Contract(
    "inference.c_revision_model:_extract_cond_masks",
    params={"cond": TCnd, "sig_index": TOpaque},
    returns=OptMask,
    ensures=lambda c, r: [z3.Implies(z3.Not(r.isnone), LitMask(MaskT.term(r.val), c.cond.t))],
    trusted=True,
    note="ASSUMED (MASK, see module docstring): a mask is returned only for literal conditionals and then decides verification / falsification from two bits; compared with the solver path by module c19",
)


# --- add_conditional ---------------------------------------------------------------------------
def _new_conds(c):
    """conds after the insertion (state at the loops: the store has already happened)"""
    return _f(c, "conds")


def _add_inv(which):
    def inv(s, j, pre):
        ws = _f(s, "worlds").t
        conds = _f(s, "conds")
        idx = s.idx.t
        cnd = s.cond.t
        acc, rej = _f(s, "world_acc"), _f(s, "world_rej")
        acc0, rej0 = _f(pre, "world_acc"), _f(pre, "world_rej")
        w = z3.Const("_ai_w", StrSort)
        seen = Seen(ws, w, j) if which == "worlds" else SeenK(_f(s, "world_bits").keys, w, j)
        upd_acc = z3.If(z3.And(seen, Ver(w, cnd)), z3.SetAdd(z3.Select(acc0.val, w), idx), z3.Select(acc0.val, w))
        upd_rej = z3.If(z3.And(seen, z3.Not(Ver(w, cnd)), Fal(w, cnd)), z3.SetAdd(z3.Select(rej0.val, w), idx), z3.Select(rej0.val, w))
        return [
            acc.keys == acc0.keys,
            rej.keys == rej0.keys,
            Forall([w], [z3.Select(acc.val, w)], z3.Select(acc.val, w) == upd_acc, "add.acc"),
            Forall([w], [z3.Select(rej.val, w)], z3.Select(rej.val, w) == upd_rej, "add.rej"),
            conds.keys == _f(pre, "conds").keys,
            conds.val == _f(pre, "conds").val,
        ]

    return inv


SeenK = Seen  # (the bit dictionary's key list is a list of world strings as well)


def _add_pre(c):
    conds = _f(c, "conds")
    ws = _f(c, "worlds").t
    bits = _f(c, "world_bits")
    p = z3.Int("_ap_p")
    return wf_self(c) + [
        # the bit dictionary has exactly the model's worlds as keys (set up by __init__)
        Forall([p], [LStr.at(bits.keys, p)], z3.Implies(z3.And(0 <= p, p < LStr.len(bits.keys)), mem_Str(ws, LStr.at(bits.keys, p))), "bits.keys.are.worlds"),
    ]


def _add_post(c, r):
    conds = _f(c, "conds")
    old = _f(c.old, "conds")
    idx = lib.cidx(c.cond.t)
    return wf_self(c, "post") + [conds.keys == LInt.snoc(old.keys, idx), conds.val == z3.Store(old.val, idx, c.cond.t)]


Contract(
    "inference.c_revision_model:CRevisionModel.add_conditional",
    params={"self": MODEL, "cond": TCnd},
    returns=TNone,
    requires=_add_pre,
    ensures=_add_post,
    raises={
        "ValueError": lambda c: z3.Or(z3.Not(lib.has_index(c.cond.t)), L.mem_Int(_f(c, "conds").keys, lib.cidx(c.cond.t))),
    },
    modifies=["self.conds", "self.masks", "self.world_acc", "self.world_rej"],
    loops={0: LoopSpec("for w in self.worlds", _add_inv("worlds")), 1: LoopSpec("for (w, bits) in self.world_bits.items()", _add_inv("bits"))},
    axioms=MASK_AXIOMS,
    properties=["C19"],
    fuel=5,
    shards=8,
    note="WF is preserved: the caches classify conds + {index: cond}; a present index is refused",
)


# --- remove_conditional ------------------------------------------------------------------------
def _rm_inv(s, j, pre):
    ws = _f(s, "worlds").t
    acc, rej = _f(s, "world_acc"), _f(s, "world_rej")
    acc0, rej0 = _f(pre, "world_acc"), _f(pre, "world_rej")
    idx = s.index.t
    w = z3.Const("_ri_w", StrSort)
    seen = Seen(ws, w, j)
    return [
        acc.keys == acc0.keys,
        rej.keys == rej0.keys,
        Forall([w], [z3.Select(acc.val, w)], z3.Select(acc.val, w) == z3.If(seen, z3.SetDel(z3.Select(acc0.val, w), idx), z3.Select(acc0.val, w)), "rm.acc"),
        Forall([w], [z3.Select(rej.val, w)], z3.Select(rej.val, w) == z3.If(seen, z3.SetDel(z3.Select(rej0.val, w), idx), z3.Select(rej0.val, w)), "rm.rej"),
        _f(s, "conds").keys == _f(pre, "conds").keys,
        _f(s, "conds").val == _f(pre, "conds").val,
    ]


def _rm_post(c, r):
    conds, old = _f(c, "conds"), _f(c.old, "conds")
    present = L.mem_Int(old.keys, c.index.t)
    return wf_self(c, "post") + [
        conds.val == old.val,
        z3.Implies(present, conds.keys == L.remove_key(L.Int)(old.keys, c.index.t)),
        z3.Implies(z3.Not(present), conds.keys == old.keys),
    ]


Contract(
    "inference.c_revision_model:CRevisionModel.remove_conditional",
    params={"self": MODEL, "index": TInt},
    returns=TNone,
    requires=lambda c: wf_self(c),
    ensures=_rm_post,
    modifies=["self.conds", "self.masks", "self.world_acc", "self.world_rej"],
    loops={0: LoopSpec("for w in self.worlds", _rm_inv)},
    properties=["C19"],
    fuel=5,
    note="WF is preserved: the caches classify conds without the removed key; an absent index changes nothing",
)


# --- __init__: the empty model is well formed, then one add_conditional per revision conditional -------------
def _bits_inv(s, j, pre):
    d = s._st.env.get("_dc")
    if not isinstance(d, VDict):
        return [j == 0]
    ws = _f(s, "worlds").t
    p = z3.Int("_bi_p")
    return [
        LStr.len(d.keys) == j,
        L.LForall([p], [LStr.at(d.keys, p)], z3.Implies(z3.And(0 <= p, p < j), LStr.at(d.keys, p) == LStr.at(ws, p)), "bits.keys"),
        L.LForall([p], [LStr.at(ws, p)], z3.Implies(z3.And(0 <= p, p < j), z3.And(LStr.at(d.keys, p) == LStr.at(ws, p), BitsOf(LStr.at(ws, p), z3.Select(d.val, LStr.at(ws, p))))), "bits.vals"),
        ws == _f(pre, "worlds").t,
    ]


def _digit_worlds(c):
    """the worlds of the ranking are strings of integer literals (bitstrings): int(b) does not raise"""
    ks = c.field(c.ranking_function, "ranks").keys
    p, k = z3.Ints("_dw_p _dw_k")
    return Forall([p, k], [chr_at(LStr.at(ks, p), k)], z3.Implies(z3.And(0 <= p, p < LStr.len(ks), 0 <= k, k < strlen(LStr.at(ks, p))), is_int_literal(chr_at(LStr.at(ks, p), k))), "worlds.are.digit.strings")


def _empty_inv(s, j, pre):
    d = s._st.env.get("_dc")
    if not isinstance(d, VDict):
        return [j == 0]
    ws = _f(s, "worlds").t
    p = z3.Int("_ei_p")
    return [
        LStr.len(d.keys) == j,
        L.LForall([p], [LStr.at(d.keys, p)], z3.Implies(z3.And(0 <= p, p < j), LStr.at(d.keys, p) == LStr.at(ws, p)), "init.keys"),
        L.LForall([p], [LStr.at(ws, p)], z3.Implies(z3.And(0 <= p, p < j), z3.And(LStr.at(d.keys, p) == LStr.at(ws, p), z3.Select(d.val, LStr.at(ws, p)) == z3.EmptySet(L.Int))), "init.vals"),
        ws == _f(pre, "worlds").t if "worlds" in pre._st.obj(pre._st.env["self"].ref)["fields"] else z3.BoolVal(True),
    ]


def _init_state(c, n):
    """well-formedness plus: the conditionals registered are the first n revision conditionals under their indices"""
    conds = _f(c, "conds")
    rc = c.revision_conditionals.t
    ws = _f(c, "worlds").t
    bits = _f(c, "world_bits")
    p = z3.Int("_is_p")
    return wf_self(c, "init") + [
        Forall([p], [LStr.at(bits.keys, p)], z3.Implies(z3.And(0 <= p, p < LStr.len(bits.keys)), mem_Str(ws, LStr.at(bits.keys, p))), "bits.keys.are.worlds"),
        LInt.len(conds.keys) == n,
        Forall([p], [L.LCnd.at(rc, p)], z3.Implies(z3.And(0 <= p, p < n), z3.And(LInt.at(conds.keys, p) == lib.cidx(L.LCnd.at(rc, p)), z3.Select(conds.val, lib.cidx(L.LCnd.at(rc, p))) == L.LCnd.at(rc, p))), "init.registered"),
        ws == c.field(c.ranking_function, "ranks").keys,
    ]


Contract(
    "inference.c_revision_model:CRevisionModel.__init__",
    params={"self": MODEL, "ranking_function": CP.OCF, "revision_conditionals": TList(TCnd)},
    returns=TNone,
    locals={"_dc": TDict(TSet(TInt), TStr), "_dc1": TDict(TList(TInt), TStr)},
    requires=lambda c: [_digit_worlds(c)],
    ensures=lambda c, r: _init_state(c, L.LCnd.len(c.revision_conditionals.t)),
    raises={"ValueError": lambda c: z3.BoolVal(True)},
    modifies=["self.ranking_function", "self.worlds", "self.conds", "self.masks", "self.world_acc", "self.world_rej", "self.world_bits", "self.sig_index"],
    abstractions={
        "list(ranking_function.signature)": (lambda s: VOpaque("signature"), "TB-py: a copy of the signature (only passed on to _extract_cond_masks)"),
        "{v: i for i, v in enumerate(self.signature)}": (lambda s: VOpaque("sig_index"), "TB-py: atom -> position (only passed on to _extract_cond_masks, whose contract MASK is assumed)"),
    },
    loops={
        1: LoopSpec("{... for w in self.worlds}", _bits_inv),
        2: LoopSpec("{... for w in self.worlds}", _empty_inv),
        3: LoopSpec("{... for w in self.worlds}", _empty_inv),
        4: LoopSpec("for cond in revision_conditionals", lambda s, j, pre: _init_state(s, j)),
    },
    axioms=MASK_AXIOMS,
    properties=["C19"],
    fuel=4,
    note="the constructor establishes the representation invariant WF: empty caches for every world of the ranking, then one "
    "add_conditional per revision conditional (registered under their indices, in order)",
)
