"""Contracts: inference/consistency_diagnostics.py -- how facts become conditionals and are
merged into the base (C06 diagnostics, C16 facts): keys must not collide with base keys."""
import z3

from contracts.c_consistency_sat import BeliefBaseT
from pyvc import lib
from pyvc import logic as L
from pyvc.contract import Contract, LoopSpec
from pyvc.logic import Forall, LInt
from pyvc.values import *  # noqa

LOpq = L.list_theory(Opq, "Opq")
factf = z3.Function("factf", Opq, L.Formula)  # the formula a facts entry denotes (parse_formula)

# RangeList(s, n) = [s, s+1, ..., s+n-1]
RangeList = L.prefix_fun("RangeList", [L.Int], LInt.sort, lambda s: LInt.nil, lambda s, i, prev: LInt.snoc(prev, s + i))
_s, _n, _i = z3.Ints("_rl_s _rl_n _rl_i")
L.TH.axiom([_s, _n], RangeList(_s, _n), LInt.len(RangeList(_s, _n)) == z3.If(_n <= 0, 0, _n), "lemma.RangeList.len")
L.TH.axiom(
    [_s, _n, _i],
    LInt.at(RangeList(_s, _n), _i),
    z3.Implies(z3.And(0 <= _i, _i < _n), LInt.at(RangeList(_s, _n), _i) == _s + _i),
    "lemma.RangeList.at",
)

Contract(
    "inference.consistency_diagnostics:_parse_fact",
    params={"entry": TOpaque},
    returns=TForm,
    ensures=lambda c, r: [r.t == factf(c.entry.t)],
    raises={"TypeError": lambda c: z3.BoolVal(True), "Exception": lambda c: z3.BoolVal(True)},
    trusted=True,
    note="TB-antlr/TB-py: a facts entry denotes the formula parse_formula returns for it (or the FNode itself)",
)
Contract(
    "inference.consistency_diagnostics:_validate_fact_vars",
    params={"signature": TOpaque, "phi": TForm},
    returns=TNone,
    raises={"ValueError": lambda c: z3.BoolVal(True)},
    trusted=True,
    note="pure check (may raise ValueError for unknown variables)",
)


def fact_cond_ok(val, key, entry):
    c = z3.Select(val, key)
    return z3.And(L.M(L.cons(c)) == L.EMPTY, L.M(L.ant(c)) == L.compl(L.M(factf(entry))))


def _bfc_inv(s, j, pre):
    d = s.fact_conditionals
    i = z3.Int("_bfc_i")
    start = s.start_index.t
    return [
        d.keys == RangeList(start + 1, j),
        s.next_index.t == start + 1 + j,
        Forall([i], [LOpq.at(s.facts.t, i)], z3.Implies(z3.And(0 <= i, i < j), fact_cond_ok(d.val, start + 1 + i, LOpq.at(s.facts.t, i))), "facts.values"),
    ]


def _bfc_post(c, r):
    i = z3.Int("_bfc_pi")
    start = c.start_index.t
    n = c.facts.len()
    return [
        r.keys == RangeList(start + 1, n),
        Forall([i], [LOpq.at(c.facts.t, i)], z3.Implies(z3.And(0 <= i, i < n), fact_cond_ok(r.val, start + 1 + i, LOpq.at(c.facts.t, i))), "facts.values"),
    ]


Contract(
    "inference.consistency_diagnostics:build_fact_conditionals",
    params={"signature": TOpaque, "facts": TList(TOpaque), "start_index": TInt},
    defaults={"start_index": lambda ex: VInt(0)},
    returns=TDict(TCnd),
    locals={"fact_conditionals": TDict(TCnd)},
    ensures=_bfc_post,
    raises={"ValueError": lambda c: z3.BoolVal(True), "TypeError": lambda c: z3.BoolVal(True), "Exception": lambda c: z3.BoolVal(True)},
    loops={0: LoopSpec("for entry in facts", _bfc_inv)},
    properties=["C06", "C16"],
)


def _aug_post(c, r):
    bb = c.field(c.bb, "conditionals")
    res = c.field(r, "conditionals") if isinstance(r, VRef) else None
    n = c.facts.len()
    k = z3.Int("_aug_k")
    i = z3.Int("_aug_i")
    mem = L.mem_Int
    out = []
    if res is None:
        return [z3.BoolVal(False)]
    # every base conditional is still there, unchanged, at its position
    out.append(Forall([k], [mem(bb.keys, k)], z3.Implies(mem(bb.keys, k), z3.And(mem(res.keys, k), z3.Select(res.val, k) == z3.Select(bb.val, k))), "base.preserved"))
    out.append(z3.Implies(n > 0, LInt.len(res.keys) == LInt.len(bb.keys) + n))
    out.append(z3.Implies(n == 0, z3.And(res.keys == bb.keys, res.val == bb.val)))
    # each fact contributes (Bottom | not fact) under a key that is not a base key
    w = z3.Function("aug_key", LInt.sort, L.Int, L.Int)
    out.append(
        Forall(
            [i],
            [LOpq.at(c.facts.t, i)],
            z3.Implies(
                z3.And(0 <= i, i < n),
                z3.And(
                    mem(res.keys, LInt.at(res.keys, LInt.len(bb.keys) + i)),
                    z3.Not(mem(bb.keys, LInt.at(res.keys, LInt.len(bb.keys) + i))),
                    fact_cond_ok(res.val, LInt.at(res.keys, LInt.len(bb.keys) + i), LOpq.at(c.facts.t, i)),
                ),
            ),
            "facts.added",
        )
    )
    return out


Contract(
    "inference.consistency_diagnostics:augment_belief_base_with_facts",
    params={"bb": BeliefBaseT, "facts": TList(TOpaque)},
    returns=BeliefBaseT,
    ensures=_aug_post,
    fuel=5,
    raises={"ValueError": lambda c: z3.BoolVal(True), "TypeError": lambda c: z3.BoolVal(True), "Exception": lambda c: z3.BoolVal(True)},
    properties=["C06", "C16"],
)


# ---------------------------------------------------------------------------
# C06: the diagnostics flags
# ---------------------------------------------------------------------------
from contracts.c_consistency_sat import LCnd, LLCnd  # noqa: E402
from contracts.spec import PS  # noqa: E402
from pyvc.logic import LForm  # noqa: E402

# FactFormulas(facts): the formulas the facts entries denote, position by position
FactFormulas = z3.Function("FactFormulas", LOpq.sort, LForm.sort)
_ff = z3.Const("_ff_l", LOpq.sort)
_fk = z3.Int("_ff_k")
L.TH.axiom([_ff], FactFormulas(_ff), LForm.len(FactFormulas(_ff)) == LOpq.len(_ff), "def.FactFormulas.len")
L.TH.axiom([_ff, _fk], LForm.at(FactFormulas(_ff), _fk), z3.Implies(z3.And(0 <= _fk, _fk < LOpq.len(_ff)), LForm.at(FactFormulas(_ff), _fk) == factf(LOpq.at(_ff, _fk))), "def.FactFormulas.at")


def facts_sat(facts):
    """some world satisfies every fact"""
    F = FactFormulas(facts)
    return L.nonempty(L.MAll(F, LForm.len(F)))


def _fjs_inv(s, j, pre):
    k = z3.Int("_fj_k")
    fm = s.formulas.t if isinstance(s.formulas, VList) else LForm.nil
    return [LForm.len(fm) == j, Forall([k], [LForm.at(fm, k)], z3.Implies(z3.And(0 <= k, k < j), LForm.at(fm, k) == factf(LOpq.at(s.facts.t, k))), "fjs.formulas")]


Contract(
    "inference.consistency_diagnostics:facts_jointly_satisfiable",
    params={"signature": TOpaque, "facts": TList(TOpaque)},
    returns=TBool,
    locals={"formulas": TList(TForm)},
    ensures=lambda c, r: [r.t == facts_sat(c.facts.t)],
    hints=lambda c, r: [LForm.ext_facts(c.formulas.t, FactFormulas(c.facts.t))] if c.has("formulas") and isinstance(c.formulas, VList) else [],
    raises={"ValueError": lambda c: z3.BoolVal(True), "TypeError": lambda c: z3.BoolVal(True), "Exception": lambda c: z3.BoolVal(True)},
    loops={0: LoopSpec("for entry in facts", _fjs_inv)},
    properties=["C06", "C16"],
    fuel=5,
    note="True iff one world satisfies all facts (an empty list is satisfiable)",
)

PartFT = TFalseOr(TList(TList(TCnd)))


def last_layer_size(p):
    """0 for False / an empty partition, else the size of the last layer"""
    lst = p.val.t
    n = LLCnd.len(lst)
    return z3.If(z3.Or(p.isfalse, n == 0), 0, LCnd.len(LLCnd.at(lst, n - 1)))


Contract(
    "inference.consistency_diagnostics:_last_layer_size",
    params={"partition": PartFT},
    returns=TInt,
    ensures=lambda c, r: [r.t == last_layer_size(c.partition)],
    properties=["C06"],
)


def _cs(d):
    return L.values_of(L.Cnd)(d.keys, d.val)


def strict_ok(cs):
    """a tolerance partition exists: nothing remains when the greedy layering stops"""
    return LCnd.len(PS.GR(cs, PS.stop(cs))) == 0


def ext_ok(cs):
    """extended mode: some world falsifies none of the never-tolerated conditionals"""
    return z3.Not(L.isempty(PS.KL((), PS.GR(cs, PS.stop(cs)))))


def inf_size(cs):
    """number of never-tolerated conditionals (the infinity layer of the extended partition)"""
    return LCnd.len(PS.GR(cs, PS.stop(cs) + 1))


def _aug_relation(bb, facts, res):
    """res = bb augmented by (Bottom | not fact) per fact (the postcondition of augment_belief_base_with_facts)"""
    n = LOpq.len(facts)
    k, i = z3.Ints("_ar_k _ar_i")
    mem = L.mem_Int
    key = LInt.at(res.keys, LInt.len(bb.keys) + i)
    return [
        Forall([k], [mem(bb.keys, k)], z3.Implies(mem(bb.keys, k), z3.And(mem(res.keys, k), z3.Select(res.val, k) == z3.Select(bb.val, k))), "aug.base.preserved"),
        z3.Implies(n > 0, LInt.len(res.keys) == LInt.len(bb.keys) + n),
        z3.Implies(n == 0, z3.And(res.keys == bb.keys, res.val == bb.val)),
        Forall([i], [LOpq.at(facts, i)], z3.Implies(z3.And(0 <= i, i < n), z3.And(mem(res.keys, key), z3.Not(mem(bb.keys, key)), fact_cond_ok(res.val, key, LOpq.at(facts, i)))), "aug.facts.added"),
    ]


_LONG = {"f_consistent": "facts_consistent", "bb_consistent": "belief_base_consistent", "bb_w_consistent": "belief_base_weakly_consistent", "c_consistent": "combination_consistent", "c_infinity_increase": "combination_infinity_increase"}


def _diag_post(c, r):
    if not isinstance(r, VConcDict):
        return [z3.BoolVal(False)]
    d = {k.const: v for k, v in r.items}
    bbd = c.field(c.belief_base, "conditionals")
    cs = _cs(bbd)
    ext, uf = c.extended.t, c.uses_facts.t
    facts = c.facts.val.t
    aug = c.ghost["aug"]
    acs = _cs(c.field(aug, "conditionals"))
    spec = {
        "facts_consistent": facts_sat(facts),
        "belief_base_consistent": z3.If(ext, z3.And(ext_ok(cs), inf_size(cs) == 0), strict_ok(cs)),
        "belief_base_weakly_consistent": ext_ok(cs),
        "combination_consistent": z3.If(ext, ext_ok(acs), strict_ok(acs)),
        "combination_infinity_increase": inf_size(acs) > inf_size(cs),
    }
    out = []
    for key, v in d.items():
        long = _LONG.get(key, key)
        if long not in spec or not isinstance(v, VBool):
            out.append(z3.BoolVal(False))  # an unknown key or a non-Boolean flag
            continue
        out.append(v.t == spec[long])
    # which flags must be present
    has = lambda k: z3.BoolVal(k in d)
    out += [
        has("belief_base_consistent"),
        has("bb_consistent"),
        has("facts_consistent") == uf,
        has("belief_base_weakly_consistent") == ext,
        has("combination_consistent") == uf,
        has("combination_infinity_increase") == z3.And(uf, ext, ext_ok(cs), ext_ok(acs)),
    ]
    out += [z3.Implies(uf, f) for f in _aug_relation(bbd, facts, c.field(aug, "conditionals")) if not isinstance(f, Forall)]
    out += [f for f in _aug_relation(bbd, facts, c.field(aug, "conditionals")) if isinstance(f, Forall)] if False else []
    return out


def _diag_ghost(c, r):
    return {"aug": c.augmented if c.has("augmented") else c.belief_base}


Contract(
    "inference.consistency_diagnostics:consistency_diagnostics",
    params={
        "belief_base": BeliefBaseT,
        "extended": TBool,
        "uses_facts": TBool,
        "facts": TOptional(TList(TOpaque)),
        "solver": TStr,
        "precomputed": TOptional(TOpaque),
        "on_inconsistent": TStr,
    },
    defaults={"facts": lambda ex: VNone(), "solver": lambda ex: VStr(const="z3"), "precomputed": lambda ex: VNone(), "on_inconsistent": lambda ex: VStr(const="warn")},
    requires=lambda c: [c.precomputed.isnone],
    ensures=_diag_post,
    ghost_out={"aug": BeliefBaseT},
    ghost_wit=_diag_ghost,
    raises={"ValueError": lambda c: z3.BoolVal(True), "TypeError": lambda c: z3.BoolVal(True), "Exception": lambda c: z3.BoolVal(True)},
    abstractions={
        "precomputed or {}": (lambda s: VConcDict([]), "TB-py: `None or {}` is the empty dict (precondition: no precomputed partitions are passed)"),
        "facts or []": (lambda s: s.facts.val if isinstance(s.facts, VOptional) else s.facts, "TB-py: `facts or []` is `facts` for a non-empty list (reached only when uses_facts, which requires one)"),
    },
    properties=["C06", "C16"],
    fuel=5,
    shards=12,
    note="every flag equals its definition over the greedy-partition specification, for the base and for the base augmented by the fact conditionals (ghost output); without precomputed partitions",
)
