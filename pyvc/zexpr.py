"""TB-zexpr: z3 Boolean expressions as syntax trees (what the tseitin-cnf tactic returns), for the
integer-CNF conversion of inference/tseitin_transformation.py (C15).

    kinds       is_not / is_or / is_true / is_false are mutually exclusive; anything else is an ATOM
    children    kids(e): list of sub-expressions; Not has exactly one
    ids         pid(e) >= 1: the IDPool id of an expression (IDPool.id is a function of its argument:
                an expression keeps the id it was given; different expressions get different ids)
    truth       under an assignment sg of truth values to IDS:  an atom is as true as its id,
                constants are constants, Not negates, Or is true iff some child is
    literals    lt(l, sg) for an integer literal l: the value of id |l|, negated if l < 0
"""
from __future__ import annotations

import z3

from . import iterm as IT
from . import logic as L
from .logic import TH, Bool, Int, list_theory
from .values import T, V

ZE = z3.DeclareSort("ZExpr")
ZS = z3.DeclareSort("ZAsg")
LZE = list_theory(ZE, "ZExpr")
LInt, LLInt = L.LInt, L.LLInt

is_not = z3.Function("z_is_not", ZE, Bool)
is_or = z3.Function("z_is_or", ZE, Bool)
is_true = z3.Function("z_is_true", ZE, Bool)
is_false = z3.Function("z_is_false", ZE, Bool)
kids = z3.Function("z_kids", ZE, LZE.sort)
pid = z3.Function("z_pid", ZE, Int)
val = z3.Function("z_val", ZS, Int, Bool)
tv = z3.Function("z_tv", ZE, ZS, Bool)
lt = z3.Function("z_lt", Int, ZS, Bool)
ZFALSE = z3.Const("z_False", ZE)  # z3.BoolVal(False)

_e, _e2 = z3.Consts("_ze_e _ze_e2", ZE)
_s = z3.Const("_ze_s", ZS)
_l = z3.Int("_ze_l")


def is_atom(e):
    return z3.And(z3.Not(is_not(e)), z3.Not(is_or(e)), z3.Not(is_true(e)), z3.Not(is_false(e)))


# some child of the first n is true
AnyTv, _ = IT.defpred_some("z_AnyTv", [LZE.sort, ZS, Int], lambda x: x[2], lambda x, k: tv(LZE.at(x[0], k), x[1]), lambda x, k: LZE.at(x[0], k))

TH.axiom([_e], is_not(_e), z3.Implies(is_not(_e), z3.And(z3.Not(is_or(_e)), z3.Not(is_true(_e)), z3.Not(is_false(_e)), LZE.len(kids(_e)) == 1)), "zexpr.kind.not")
TH.axiom([_e], is_or(_e), z3.Implies(is_or(_e), z3.And(z3.Not(is_true(_e)), z3.Not(is_false(_e)))), "zexpr.kind.or")
TH.axiom([_e], is_true(_e), z3.Implies(is_true(_e), z3.Not(is_false(_e))), "zexpr.kind.true")
TH.fact(is_false(ZFALSE))
TH.axiom([_e], pid(_e), pid(_e) >= 1, "zexpr.pid.positive")
TH.axiom([_e, _e2], [pid(_e), pid(_e2)], z3.Implies(pid(_e) == pid(_e2), _e == _e2), "zexpr.pid.injective")
TH.axiom(
    [_e, _s],
    tv(_e, _s),
    tv(_e, _s)
    == z3.If(
        is_true(_e),
        True,
        z3.If(is_false(_e), False, z3.If(is_not(_e), z3.Not(tv(LZE.at(kids(_e), 0), _s)), z3.If(is_or(_e), AnyTv(kids(_e), _s, LZE.len(kids(_e))), val(_s, pid(_e))))),
    ),
    "zexpr.tv",
)
TH.axiom([_l, _s], lt(_l, _s), lt(_l, _s) == z3.If(_l > 0, val(_s, _l), z3.Not(val(_s, -_l))), "zexpr.lt")

# integer clauses / CNFs
ClauseHolds, _ = IT.defpred_some("z_ClauseHolds", [LInt.sort, ZS, Int], lambda x: x[2], lambda x, k: lt(LInt.at(x[0], k), x[1]), lambda x, k: LInt.at(x[0], k))
CnfHolds, _ = IT.defpred_all("z_CnfHolds", [LLInt.sort, ZS, Int], lambda x: x[2], lambda x, k: ClauseHolds(LLInt.at(x[0], k), x[1], LInt.len(LLInt.at(x[0], k))), lambda x, k: LLInt.at(x[0], k))
GoalHolds, _ = IT.defpred_all("z_GoalHolds", [LZE.sort, ZS, Int], lambda x: x[2], lambda x, k: tv(LZE.at(x[0], k), x[1]), lambda x, k: LZE.at(x[0], k))


class VZE(V):
    def __init__(self, t):
        self.t = t
        self.ty = TZE


class _TZE(T):
    def fresh(self, name, st):
        return VZE(st.fresh_const(name, ZE))

    def sort(self):
        return ZE

    def wrap(self, t):
        return VZE(t)


TZE = _TZE()
