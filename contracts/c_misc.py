"""Contracts: parser/myVisitor.py (C10, visitor level), dispatch functions (C11),
RandomMinCRepPreOCF.c_vec2ocf (C17)"""
import z3

from contracts.c_inference import ES_COMMON, PartT
from contracts.c_preocf import RanksT, Wof
from pyvc import lib
from pyvc import logic as L
from pyvc.contract import Contract, LoopSpec
from pyvc.logic import LInt
from pyvc.values import *  # noqa

# ---------------------------------------------------------------------------
# C10: the visitor maps a parse tree to the documented meaning
# ---------------------------------------------------------------------------
VIS = TObj("myVisitor", {"sigcheck": TList(TStr), "signature": TOpaque})


def _kid(c, name):
    return L.M(lib.sem(lib.child[name](c.ctx.t)))


Contract(
    "parser.myVisitor:myVisitor.visitOr",
    params={"self": VIS, "ctx": lib.TCtx},
    returns=TForm,
    ensures=lambda c, r: [L.M(r.t) == L.union(_kid(c, "left"), _kid(c, "right"))],
    properties=["C10"],
)
Contract(
    "parser.myVisitor:myVisitor.visitAnd",
    params={"self": VIS, "ctx": lib.TCtx},
    returns=TForm,
    ensures=lambda c, r: [L.M(r.t) == L.inter(_kid(c, "left"), _kid(c, "right"))],
    properties=["C10"],
)
Contract(
    "parser.myVisitor:myVisitor.visitNegation",
    params={"self": VIS, "ctx": lib.TCtx},
    returns=TForm,
    ensures=lambda c, r: [L.M(r.t) == L.compl(_kid(c, "formula"))],
    properties=["C10"],
)
Contract(
    "parser.myVisitor:myVisitor.visitParen",
    params={"self": VIS, "ctx": lib.TCtx},
    returns=TForm,
    ensures=lambda c, r: [L.M(r.t) == _kid(c, "formula")],
    properties=["C10"],
)


def _var_post(c, r):
    name = lib.tok_text(lib.child["atom"](c.ctx.t))
    top, bottom = VStr(const="Top").t, VStr(const="Bottom").t
    return [
        z3.Implies(name == top, L.M(r.t) == L.FULL),
        z3.Implies(name == bottom, L.M(r.t) == L.EMPTY),
        z3.Implies(z3.And(name != top, name != bottom), r.t == lib.f_sym(name)),
    ]


Contract(
    "parser.myVisitor:myVisitor.visitVar",
    params={"self": VIS, "ctx": lib.TCtx},
    returns=TForm,
    ensures=_var_post,
    properties=["C10"],
)

# ---------------------------------------------------------------------------
# C11: back-end selection
# ---------------------------------------------------------------------------
ES = TRec(dict(ES_COMMON))
cls_of = z3.Function("cls_of", StrSort, StrSort, StrSort)  # documentation only


def _cls(c, r):
    return c._st.obj(r.ref)["cls"]


def _dispatch_post(c, r):
    sysn = c._st.obj(c.epistemic_state.ref)["fields"]["inference_system"].t
    pm = c._st.obj(c.epistemic_state.ref)["fields"]["pmaxsat_solver"].t
    S = lambda x: VStr(const=x).t
    cls = _cls(c, r)
    want = {
        "PEntailment": sysn == S("p-entailment"),
        "SystemZ": sysn == S("system-z"),
        "SystemWZ3": z3.And(sysn == S("system-w"), pm == S("z3")),
        "SystemW": z3.And(sysn == S("system-w"), pm != S("z3")),
        "CInference": sysn == S("c-inference"),
        "LexInfZ3": z3.And(sysn == S("lex_inf"), pm == S("z3")),
        "LexInf": z3.And(sysn == S("lex_inf"), pm != S("z3")),
    }
    # the class actually constructed on this path must be the one the table demands,
    # and the instance must share the manager's epistemic state
    same_state = c._st.obj(r.ref)["fields"]["epistemic_state"] is c.epistemic_state
    if cls not in want:
        return [z3.BoolVal(same_state)]  # at call sites the instance is of the abstract class
    return [want[cls], z3.BoolVal(same_state)]


def _distinct_literals():
    lits = [VStr(const=x).t for x in ("p-entailment", "system-z", "system-w", "c-inference", "lex_inf", "z3")]
    return [z3.Distinct(*lits)]


Contract(
    "inference.inference_manager:create_inference_instance",
    params={"epistemic_state": ES},
    returns=TObj("Inference", {}),
    ensures=_dispatch_post,
    raises={
        "Exception": lambda c: z3.And(
            *[
                c._st.obj(c.epistemic_state.ref)["fields"]["inference_system"].t != VStr(const=x).t
                for x in ("p-entailment", "system-z", "system-w", "c-inference", "lex_inf")
            ]
        )
    },
    properties=["C11"],
)


def _opt_name(c):
    return c._st.obj(c.epistemic_state.ref)["fields"]["pmaxsat_solver"].t


def _build_optimizer(ex, bound):
    """the optimizer shares the caller's epistemic state (proved as create_optimizer's own postcondition)"""
    ref = ex.st.alloc({"kind": "obj", "cls": "OptimizerRC2", "fields": {"epistemic_state": bound["epistemic_state"]}})
    return VRef(ref, TObj("Optimizer", {}))


Contract(
    "inference.optimizer:create_optimizer",
    params={"epistemic_state": ES},
    returns=TObj("Optimizer", {}),
    result_builder=_build_optimizer,
    ensures=lambda c, r: [
        lib.StartsWith(_opt_name(c), VStr(const="rc2").t),
        z3.BoolVal(_cls(c, r) == "OptimizerRC2"),
        z3.BoolVal(c._st.obj(r.ref)["fields"]["epistemic_state"] is c.epistemic_state),
    ],
    raises={"ValueError": lambda c: z3.Not(lib.StartsWith(_opt_name(c), VStr(const="rc2").t))},
    properties=["C11"],
)

# ---------------------------------------------------------------------------
# C17: rank of a world under a c-representation = sum of impacts of falsified conditionals
# ---------------------------------------------------------------------------
CMapS = z3.ArraySort(L.Int, L.Cnd)
SumFal = z3.Function("SumFal", LInt.sort, CMapS, LInt.sort, L.WSet, L.Int, L.Int)
_k, _v, _imp, _W, _n = (
    z3.Const("_sf_k", LInt.sort),
    z3.Const("_sf_v", CMapS),
    z3.Const("_sf_i", LInt.sort),
    z3.Const("_sf_W", L.WSet),
    z3.Int("_sf_n"),
)
_key = LInt.at(_k, _n - 1)
L.TH.axiom(
    [_k, _v, _imp, _W, _n],
    SumFal(_k, _v, _imp, _W, _n),
    SumFal(_k, _v, _imp, _W, _n)
    == z3.If(
        _n <= 0,
        0,
        SumFal(_k, _v, _imp, _W, _n - 1)
        + z3.If(L.nonempty(L.inter(_W, L.fal(z3.Select(_v, _key)))), LInt.at(_imp, _key - 1), 0),
    ),
    "unfold.SumFal",
)
CREP = TObj(
    "RandomMinCRepPreOCF",
    {"ranks": RanksT, "signature": TOpaque, "conditionals": TDict(TCnd), "_impacts": TList(TInt)},
)
Contract(
    "inference.preocf:RandomMinCRepPreOCF.symbolize_bitvec",
    params={"self": CREP, "bitvec": TStr},
    returns=TList(TForm),
    ensures=lambda c, r: [L.MAll(r.t, r.len()) == Wof(c.bitvec.t)],
    trusted=True,
    note="ASSUMED, see PreOCF.symbolize_bitvec",
)


def _keys_in_range(c):
    d = c.field(c.self, "conditionals")
    imp = c.field(c.self, "_impacts")
    i = z3.Int("_kr_i")
    return L.Forall(
        [i],
        [LInt.at(d.keys, i)],
        z3.Implies(z3.And(0 <= i, i < LInt.len(d.keys)), z3.And(1 <= LInt.at(d.keys, i), LInt.at(d.keys, i) <= imp.len())),
        "keys.1..n",
    )


def _cvec_inv(s, j, pre):
    d = s.field(s.self, "conditionals")
    imp = s.field(s.self, "_impacts")
    return [s.rank.t == SumFal(d.keys, d.val, imp.t, Wof(s.world.t), j)]


Contract(
    "inference.preocf:RandomMinCRepPreOCF.c_vec2ocf",
    params={"self": CREP, "world": TStr},
    returns=TInt,
    requires=lambda c: [_keys_in_range(c)],
    ensures=lambda c, r: [
        r.t
        == SumFal(
            c.field(c.self, "conditionals").keys,
            c.field(c.self, "conditionals").val,
            c.field(c.self, "_impacts").t,
            Wof(c.world.t),
            LInt.len(c.field(c.self, "conditionals").keys),
        )
    ],
    loops={
        0: LoopSpec("for (idx, cond) in self.conditionals.items()", _cvec_inv),
        1: LoopSpec(
            "for sym in world_symbols",
            lambda s, j, pre: [s.A(s.solver) == L.inter(pre.A(pre.solver), L.MAll(s.world_symbols.t, j))],
        ),
    },
    properties=["C17"],
)


def _crep_rank(c, w):
    d = c.field(c.self, "conditionals")
    return SumFal(d.keys, d.val, c.field(c.self, "_impacts").t, Wof(w), LInt.len(d.keys))


def _crep_cache(c):
    """every cached rank is the impact sum of that world (lazy and forced computation agree)"""
    from contracts.c_preocf import OptInt, mem_Str

    d = c.field(c.self, "ranks")
    w = z3.Const("_cc2_w", StrSort)
    e = z3.Select(d.val, w)
    return L.Forall([w], [mem_Str(d.keys, w)], z3.Implies(mem_Str(d.keys, w), z3.Or(OptInt.is_none(e), OptInt.val(e) == _crep_rank(c, w))), "crep.cache.invariant")


def _crep_keys(c):
    return c.field(c.self, "ranks").keys


def _crep_frame(c):
    return [
        c.field(c.self, "conditionals").keys == c.field(c.old.self, "conditionals").keys,
        c.field(c.self, "conditionals").val == c.field(c.old.self, "conditionals").val,
        c.field(c.self, "_impacts").t == c.field(c.old.self, "_impacts").t,
    ]


Contract(
    "inference.preocf:RandomMinCRepPreOCF.rank_world",
    params={"self": CREP, "world": TStr, "force_calculation": TBool},
    defaults={"force_calculation": lambda ex: VBool(False)},
    returns=TInt,
    requires=lambda c: [_keys_in_range(c), __import__("contracts.c_preocf", fromlist=["mem_Str"]).mem_Str(_crep_keys(c), c.world.t), _crep_cache(c)],
    ensures=lambda c, r: [r.t == _crep_rank(c, c.world.t), _crep_keys(c) == _crep_keys(c.old), _crep_cache(c)],
    modifies=["self.ranks"],
    properties=["C17"],
    note="the rank returned (computed now, forced, or read from the cache) is the sum of the impacts of the conditionals the world "
    "falsifies; the cache keeps that meaning",
)


# ---------------------------------------------------------------------------
# C10: the conditionals of a parsed base: file order, keys 1..n, consequent before the bar
# ---------------------------------------------------------------------------
from contracts.c_consistency_sat import BeliefBaseT  # noqa: E402
from contracts.c_diagnostics import RangeList  # noqa: E402
from pyvc.logic import LCnd  # noqa: E402

_cx = z3.Const("_cd_x", lib.Ctx)


def _this_cond(x):
    """the conditional written at node x: (consequent | antecedent)"""
    return L.mk_cnd(lib.sem(lib.child["consequent"](x)), lib.sem(lib.child["antecedent"](x)))


# CondsOf(x): the conditionals of a condition list in the order they are written
CONDS_DEF = [
    L.Forall(
        [_cx],
        [lib.CondsOf(_cx)],
        lib.CondsOf(_cx) == z3.If(lib.has_condition(_cx), LCnd.concat(LCnd.snoc(LCnd.nil, _this_cond(_cx)), lib.CondsOf(lib.child["condition"](_cx))), LCnd.snoc(LCnd.nil, _this_cond(_cx))),
        "def.CondsOf",
    )
]

Contract(
    "parser.myVisitor:myVisitor.visitCondition",
    params={"self": VIS, "ctx": lib.TCtx},
    returns=TList(TCnd),
    ensures=lambda c, r: [r.t == lib.CondsOf(c.ctx.t)],
    axioms=CONDS_DEF,
    properties=["C10"],
    note="visit(ctx.condition()) denotes CondsOf of that subtree (TB-antlr: the visitor dispatch); proved: this node's conditional comes first, consequent / antecedent are not swapped",
)


def _vc_inv(s, j, pre):
    lst = lib.CondsOf(lib.child["condition"](s.ctx.t))
    d = s._st.env.get("_dc")
    if not isinstance(d, VDict):
        return [j == 0]
    p = z3.Int("_vc_p")
    return [
        d.keys == RangeList(z3.IntVal(1), j),
        L.Forall([p], [LCnd.at(lst, p)], z3.Implies(z3.And(0 <= p, p < j), z3.Select(d.val, p + 1) == LCnd.at(lst, p)), "vc.values"),
    ]


def _vc_post(c, r):
    d = c.field(r, "conditionals")
    lst = lib.CondsOf(lib.child["condition"](c.ctx.t))
    p = z3.Int("_vc_p2")
    has = lib.has_condition(c.ctx.t)
    n = z3.If(has, LCnd.len(lst), 0)
    return [
        d.keys == RangeList(z3.IntVal(1), n),
        L.Forall([p], [LCnd.at(lst, p)], z3.Implies(z3.And(has, 0 <= p, p < LCnd.len(lst)), z3.Select(d.val, p + 1) == LCnd.at(lst, p)), "visitConditionals.values"),
    ]


Contract(
    "parser.myVisitor:myVisitor.visitConditionals",
    params={"self": VIS, "ctx": lib.TCtx},
    returns=BeliefBaseT,
    locals={"_dc": TDict(TCnd), "conditionals": TDict(TCnd)},
    ensures=_vc_post,
    loops={0: LoopSpec("{... for (i, c) in enumerate(self.visit(ctx.condition())*", _vc_inv)},
    properties=["C10"],
    note="the parsed base's conditionals are keyed 1..n in the order they are written",
)


# ---------------------------------------------------------------------------
# C10: "text that is not entirely well formed is rejected": after the start rule has stopped, everything that is left
# of the input must be NEWLINE* EOF, otherwise an exception is raised
# ---------------------------------------------------------------------------
from pyvc import lib as _lib  # noqa: E402

TStream = TObj("CommonTokenStream", {"toks": TList(TInt), "pos": TInt})


def _ts(c, v=None):
    o = v if v is not None else c.tokens
    return c.field(o, "toks").t, c.field(o, "pos").t


def _rest_newlines(toks, lo, hi, name):
    if _lib.TOKEN_NEWLINE is None:
        raise Unsupported("shape mismatch: token type CKBParser.NEWLINE not found in the generated parser")
    p = z3.Int("_re_p")
    return L.Forall([p], [L.LInt.at(toks, p)], z3.Implies(z3.And(lo <= p, p < hi), L.LInt.at(toks, p) == _lib.TOKEN_NEWLINE), name)


def _reoi_inv(s, j, pre):
    toks, pos = _ts(s)
    toks0, pos0 = _ts(pre)
    return [toks == toks0, pos0 <= pos, pos < L.LInt.len(toks), _rest_newlines(toks, pos0, pos, "reoi.inv.newlines")]


def _reoi_post(c, r):
    toks, pos = _ts(c)
    toks0, pos0 = _ts(c.old)
    return [
        toks == toks0,
        pos0 <= pos,
        pos == L.LInt.len(toks) - 1,  # the position reached is the EOF token: nothing but newlines was skipped, nothing is left
        _rest_newlines(toks, pos0, pos, "end_of_input.only.newlines.left"),
    ]


def _reoi_raise(c):
    toks, pos = _ts(c)
    toks0, pos0 = _ts(c.old)
    t = L.LInt.at(toks, pos)
    # raised only at a token that is neither NEWLINE nor EOF, reached over newlines only
    return z3.And(toks == toks0, pos0 <= pos, pos < L.LInt.len(toks) - 1, t != _lib.TOKEN_NEWLINE, t != _lib.TOKEN_EOF)


Contract(
    "parser.Wrappers:_require_end_of_input",
    params={"tokens": TStream},
    returns=TNone,
    requires=lambda c: _lib.stream_wf(*_ts(c)),
    ensures=_reoi_post,
    raises={"Exception": _reoi_raise},
    modifies=["tokens.pos"],
    loops={0: LoopSpec("while tokens.LA(1) == CKBParser.NEWLINE", _reoi_inv)},
    properties=["C10"],
    note="normal return iff the rest of the token stream is NEWLINE* EOF (the stream ends up at EOF); otherwise an exception, "
    "raised at the first token that is neither; token stream modelled as the list of its on-channel token types (TB-antlr)",
)


def _accepted(c, tree, src):
    """what a normal return of a parse wrapper guarantees about the text `src`: it was lexed and parsed without a
    reported error, and behind the place where the start rule stopped there are only newlines"""
    toks = _lib.LexOf(src)
    stop = _lib.StartPos(tree)
    return [
        _lib.LexClean(toks),
        _lib.ParseClean(tree),
        _rest_newlines(toks, stop, L.LInt.len(toks) - 1, "accepted.only.newlines.after.the.parse"),
    ]


Contract(
    "parser.Wrappers:_ThrowingErrorListener.syntaxError",
    params={"self": TOpaque, "recognizer": TOpaque, "offendingSymbol": TOpaque, "line": TInt, "column": TInt, "msg": TStr, "e": TOpaque},
    returns=TNone,
    ensures=lambda c, r: [z3.BoolVal(False)],
    raises={"Exception": lambda c: z3.BoolVal(True)},
    properties=["C10"],
    note="the listener never returns normally: every reported error becomes an exception",
)

Contract(
    "parser.Wrappers:_getParseTree",
    params={"ckbs_string": TStr},
    returns=_lib.TCtx,
    ensures=lambda c, r: _accepted(c, r.t, c.ckbs_string.t),
    raises={"Exception": lambda c: z3.BoolVal(True)},
    properties=["C10"],
    note="a tree is returned only for a text that was lexed and parsed without a reported error (both recognisers have the raising "
    "listener as their only listener) and is followed by newlines only; relative to TB-antlr (recogniser level)",
)

Contract(
    "parser.Wrappers:parse_formula",
    params={"string": TStr},
    returns=TForm,
    ensures=lambda c, r: [r.t == _lib.sem(c.ghost["tree"].t)] + _accepted(c, c.ghost["tree"].t, c.string.t),
    ghost_out={"tree": _lib.TCtx},
    ghost_wit=lambda c, r: {"tree": c.tree},
    raises={"Exception": lambda c: z3.BoolVal(True)},
    properties=["C10"],
    note="the formula returned is the visitor's meaning of a tree (ghost output) obtained without a reported error from the whole text",
)


# ---------------------------------------------------------------------------
# C10: "a parsed base has the declared signature": the identifier list of the signature section, in the order written,
# without duplicates and without the reserved names
# ---------------------------------------------------------------------------
from contracts.c_preocf import LStr, mem_Str  # noqa: E402

_ix = z3.Const("_id_x", lib.Ctx)
_one = lambda x: LStr.snoc(LStr.nil, lib.tok_text(lib.child["num"](x)))
IDS_DEF = [
    L.Forall([_ix], [lib.IdsOf(_ix)], lib.IdsOf(_ix) == z3.If(lib.has_myid(_ix), LStr.concat(_one(_ix), lib.IdsOf(lib.child["myid"](_ix))), _one(_ix)), "def.IdsOf"),
]

Contract(
    "parser.myVisitor:myVisitor.visitMyid",
    params={"self": VIS, "ctx": lib.TCtx},
    returns=TList(TStr),
    ensures=lambda c, r: [r.t == lib.IdsOf(c.ctx.t)],
    axioms=IDS_DEF,
    properties=["C10"],
    note="an identifier list denotes its identifiers in the order written (this node's first)",
)

setofS = L.set_of_list(StrSort)
_enumS, _eidxS, cardS = L.enum_theory(StrSort)


def _sig_post(c, r):
    ids = lib.IdsOf(lib.child["myid"](c.ctx.t))
    return [r.t == ids, LStr.len(ids) == cardS(setofS(ids)), z3.Not(mem_Str(ids, VStr(const="Top").t)), z3.Not(mem_Str(ids, VStr(const="Bottom").t))]


def _sig_refused(c):
    ids = lib.IdsOf(lib.child["myid"](c.ctx.t))
    return z3.Or(LStr.len(ids) != cardS(setofS(ids)), mem_Str(ids, VStr(const="Top").t), mem_Str(ids, VStr(const="Bottom").t))


Contract(
    "parser.myVisitor:myVisitor.visitSignature",
    params={"self": VIS, "ctx": lib.TCtx},
    returns=TList(TStr),
    requires=lambda c: [lib.has_myid(c.ctx.t)],
    ensures=_sig_post,
    raises={"ValueError": _sig_refused},
    properties=["C10"],
    note="the signature is the identifier list as written; it is refused (ValueError) exactly if it has as many entries as distinct "
    "entries fails (a duplicate) or contains Top / Bottom",
)
